//! C14 — every backend's scalar conversions implement the canonical ABI mapping.
//!
//! Probe world: one imported and one exported function per scalar type; bindings generated
//! in-process by every backend from /repo's working tree. Rust / C / C++ glue is compiled with the
//! real compilers and run natively over the whole domain; MoonBit / C# / Go / D glue bodies are
//! parsed by a micro-grammar and evaluated under a per-language semantics table. Oracle: refabi.rs.
mod cells;
mod gen;
mod interp;
mod native;
mod refabi;

use cells::{show_core, show_user, Bad, Cell};
use interp::langs::{discover, Probes};
use interp::{EvalErr, Lang, Ty, Val};
use refabi::{Lift, WTy, ALL};
use serde_json::{json, Value};
use std::collections::BTreeMap;
use std::sync::Arc;

const LANGS: [Lang; 4] = [Lang::MoonBit, Lang::CSharp, Lang::Go, Lang::D];
const SITES: [&str; 2] = ["imp", "exp"];

struct Scratch(String);
impl Scratch {
    fn new() -> Scratch {
        let d = format!("{}/c14-{}", std::env::temp_dir().display(), std::process::id());
        let _ = std::fs::remove_dir_all(&d);
        std::fs::create_dir_all(&d).unwrap_or_else(|e| vcommon::machinery(&format!("cannot create {d}: {e}")));
        Scratch(d)
    }
    fn fail(&self, msg: &str) -> ! {
        let _ = std::fs::remove_dir_all(&self.0);
        vcommon::machinery(msg)
    }
}
impl Drop for Scratch {
    fn drop(&mut self) {
        if std::env::var_os("C14_KEEP_SCRATCH").is_some() {
            eprintln!("scratch kept: {}", self.0);
            return;
        }
        let _ = std::fs::remove_dir_all(&self.0);
    }
}

fn generate_all() -> Result<BTreeMap<String, BTreeMap<String, String>>, String> {
    vcommon::install_quiet_panic_hook();
    let mut out = BTreeMap::new();
    for b in gen::BACKENDS {
        match vcommon::catch(|| gen::generate(b)) {
            Ok(Ok(f)) => {
                out.insert(b.to_string(), f);
            }
            Ok(Err(e)) => return Err(e),
            Err(p) => return Err(format!("{b} generator panicked on the probe world: {p}")),
        }
    }
    let _ = std::panic::take_hook();
    Ok(out)
}

// ------------------------------------------------------------------------------------------
// interpreter path

fn user_val(ty: Ty, t: WTy, cont: u64) -> Result<Val, String> {
    match t {
        WTy::Bool => (ty == Ty::Bool).then_some(Val { ty, bits: cont }).ok_or(format!("bool declared as {:?}", ty)),
        WTy::F32 => (ty == Ty::F32).then_some(Val { ty, bits: cont }).ok_or(format!("f32 declared as {:?}", ty)),
        WTy::F64 => (ty == Ty::F64).then_some(Val { ty, bits: cont }).ok_or(format!("f64 declared as {:?}", ty)),
        _ => {
            let m = refabi::user_math(t, cont);
            if ty == Ty::Char && t == WTy::Char {
                return Ok(Val { ty, bits: cont });
            }
            if ty.int().is_some() && Val::fits(ty, m) {
                return Ok(Val::wrap(ty, m));
            }
            Err(format!("user-level type {:?} cannot represent {} value {m}", ty, t.name()))
        }
    }
}

fn core_val(ty: Ty, t: WTy, c: u64) -> Result<Val, String> {
    let ok = match (t.core_bits(), t.is_float()) {
        (32, false) => matches!(ty, Ty::I32 | Ty::U32),
        (64, false) => matches!(ty, Ty::I64 | Ty::U64),
        (32, true) => ty == Ty::F32,
        _ => ty == Ty::F64,
    };
    if !ok {
        return Err(format!("core type of {} declared as {:?}", t.name(), ty));
    }
    Ok(Val { ty, bits: c })
}

fn user_container_of(v: Val, t: WTy) -> Result<u64, String> {
    match t {
        WTy::Bool | WTy::F32 | WTy::F64 => Ok(v.bits),
        _ => {
            if v.ty == Ty::Char || v.ty.int().is_some() {
                Ok(v.math() as u64) // two's complement at 64 bits
            } else {
                Err(format!("user-level {} observed as {:?}", t.name(), v.ty))
            }
        }
    }
}

/// The word set of one interpreted probe as (structured words, consecutive ranges); words of the
/// structured set that fall into a range are dropped so that nothing is evaluated twice.
fn interp_words(t: WTy, thorough: bool) -> (Vec<u64>, Vec<(u64, u64)>) {
    let mut ranges: Vec<(u64, u64)> = Vec::new();
    let narrow = t == WTy::Bool || t.int_width().map_or(false, |(n, _)| n <= 16);
    if narrow {
        for h in refabi::high_patterns(thorough) {
            ranges.push((h << 16, (h << 16) + 0x1_0000));
        }
    }
    if t == WTy::Char {
        if thorough {
            ranges.push((0, 0x12_0000));
        } else {
            ranges.extend([(0, 0x3000), (0xD000, 0xE100), (0x10_FF00, 0x11_0100)]);
        }
    }
    let mut v = refabi::structured_words(t);
    v.retain(|w| !ranges.iter().any(|(lo, hi)| lo <= w && w < hi));
    (v, ranges)
}

/// Evaluate one word through one probe and judge it; Err = machinery.
fn interp_eval_word(lang: Lang, probe: &interp::Probe, site: &str, t: WTy, w: u64, cell: &mut Cell) -> Result<(), String> {
    let v = refabi::user_from_word(t, w);
    let c = refabi::core_from_word(t, w);
    let f = &probe.func;
    let (arg, oret) = if site == "imp" {
        (user_val(f.params[0].1, t, v)?, core_val(probe.opaque_sig.ret, t, c)?)
    } else {
        (core_val(f.params[0].1, t, c)?, user_val(probe.opaque_sig.ret, t, v)?)
    };
    match interp::eval(lang, probe, arg, oret) {
        Ok(o) => {
            let (lowered, lifted) = if site == "imp" {
                // the stub's declared parameter type must be the core type
                let a = o.opaque_arg.ok_or(format!("{}: import stub never called", f.name))?;
                core_val(a.ty, t, a.bits)?;
                (Some(a.bits), Some(user_container_of(o.ret, t)?))
            } else {
                let a = o.opaque_arg.ok_or(format!("{}: user implementation never called", f.name))?;
                core_val(o.ret.ty, t, o.ret.bits)?;
                (Some(o.ret.bits), Some(user_container_of(a, t)?))
            };
            cell.judge(w, v, c, false, lowered, lifted);
            Ok(())
        }
        Err((EvalErr::IllTyped(m), reached)) => {
            let dir = match (site, reached) {
                ("imp", false) | ("exp", true) => "lower",
                _ => "lift",
            };
            if cell.ill_typed.is_none() {
                cell.ill_typed = Some((dir.to_string(), m, w));
            }
            Ok(())
        }
        Err((EvalErr::Unsupported(m), _)) => Err(format!(
            "{} {}: body outside the micro-grammar / semantics table: {m}; body: {}",
            lang.backend(),
            f.name,
            f.src
        )),
    }
}

fn interp_cell(lang: Lang, probes: &Probes, site: &'static str, t: WTy, thorough: bool) -> Result<Cell, String> {
    let probe = probes.get(&(site, t)).ok_or("probe missing")?;
    let mut cell = Cell::new("interp", lang.backend(), lang.backend(), site, t);
    cell.body = Some(probe.func.src.clone());
    let (words, ranges) = interp_words(t, thorough);
    let all = words.into_iter().chain(ranges.into_iter().flat_map(|(lo, hi)| lo..hi));
    for w in all {
        interp_eval_word(lang, probe, site, t, w, &mut cell)?;
        if cell.ill_typed.is_some() {
            break;
        }
    }
    Ok(cell)
}

// ------------------------------------------------------------------------------------------
// native path

const SWEEP32: [WTy; 8] = [WTy::Bool, WTy::U8, WTy::S8, WTy::U16, WTy::S16, WTy::U32, WTy::S32, WTy::F32];

fn sweep_ranges(t: WTy, thorough: bool) -> (Vec<(u64, u64)>, bool) {
    if t == WTy::Char {
        return (vec![(0, 0x12_0000)], false);
    }
    if thorough {
        let step = 1u64 << 28;
        return ((0..16).map(|k| (k * step, (k + 1) * step)).collect(), true);
    }
    match t {
        WTy::Bool | WTy::U8 | WTy::S8 | WTy::U16 | WTy::S16 => {
            (refabi::high_patterns(false).into_iter().map(|h| (h << 16, (h << 16) + 0x1_0000)).collect(), false)
        }
        _ => (
            vec![(0, 1 << 20), ((1 << 31) - (1 << 19), (1 << 31) + (1 << 19)), ((1u64 << 32) - (1 << 20), 1u64 << 32)],
            false,
        ),
    }
}

fn list_input(build: &native::Build, only: Option<(&str, WTy, u64)>) -> String {
    let mut s = String::new();
    if let Some((site, t, w)) = only {
        s.push_str(&format!("{site} {} {w:x}\n", t.idx()));
        return s;
    }
    for site in SITES {
        for t in ALL {
            for w in refabi::structured_words(t) {
                if build.valid_only && refabi::ref_lift(t, refabi::core_from_word(t, w)) == Lift::Unjudged && t == WTy::Char {
                    continue; // undefined behaviour in the generated code (from_u32_unchecked): not an input
                }
                s.push_str(&format!("{site} {} {w:x}\n", t.idx()));
            }
        }
    }
    s
}

fn judge_list_output(build: &native::Build, out: &str, cells: &mut BTreeMap<(String, String, WTy), Cell>) -> Result<u64, String> {
    let mut n = 0;
    for line in out.lines() {
        let f: Vec<&str> = line.split_whitespace().collect();
        if f.len() != 8 {
            return Err(format!("{}: bad list line `{line}`", build.name));
        }
        let hex = |s: &str| u64::from_str_radix(s, 16).map_err(|e| format!("bad hex {s}: {e}"));
        let site = f[0];
        let t = WTy::from_idx(f[1].parse::<usize>().map_err(|e| e.to_string())?);
        let (w, v, c) = (hex(f[2])?, hex(f[3])?, hex(f[4])?);
        let st: u32 = f[5].parse().map_err(|_| "bad status".to_string())?;
        let (lo, li) = (hex(f[6])?, hex(f[7])?);
        if v != refabi::user_from_word(t, w) || c != refabi::core_from_word(t, w) {
            return Err(format!("{}: native driver disagrees with refabi on the inputs for word {w:x} of {}", build.name, t.name()));
        }
        let trapped = st & 1 == 1;
        let reached = st & 2 == 2;
        let lowered = (reached && (site == "imp" || !trapped)).then_some(lo);
        let lifted = if site == "imp" { (!trapped).then_some(li) } else { reached.then_some(li) };
        let cell = cells
            .entry((build.name.clone(), site.to_string(), t))
            .or_insert_with(|| Cell::new("native", &build.name, build.backend, site, t));
        cell.judge(w, v, c, trapped && !(site == "exp" && reached), lowered, lifted);
        n += 1;
    }
    Ok(n)
}

fn ref_crosscheck(build: &native::Build) -> Result<u64, String> {
    let mut input = String::new();
    for t in ALL {
        let mut ws = refabi::structured_words(t);
        ws.extend((0..0x400u64).map(|k| k * 0x0040_1003 + 0x7F)); // a few more, spread over 32 bits
        for w in ws {
            input.push_str(&format!("{} {w:x}\n", t.idx()));
        }
    }
    let out = native::run_jobs(
        vec![native::Job { build: 0, exe: build.exe.clone(), args: vec!["ref".into()], stdin: Some(Arc::new(input)), tag: "ref".into(), optional: false }],
        1,
        None,
    )?;
    let mut n = 0;
    for line in out[0].as_deref().unwrap_or("").lines() {
        let f: Vec<&str> = line.split_whitespace().collect();
        if f.len() != 9 {
            return Err(format!("bad ref line `{line}`"));
        }
        let hex = |s: &str| u64::from_str_radix(s, 16).unwrap_or(u64::MAX - 7);
        let t = WTy::from_idx(f[0].parse::<usize>().unwrap_or(0));
        let w = hex(f[1]);
        let (v, c) = (refabi::user_from_word(t, w), refabi::core_from_word(t, w));
        let (judged, el) = match refabi::ref_lift(t, c) {
            Lift::Value(e) => (1, e),
            Lift::Unjudged => (0, c),
        };
        let want = format!(
            "{} {:x} {:x} {:x} {:x} {} {:x} {} {}",
            t.idx(), w, v, c, refabi::ref_lower(t, v), judged, el, refabi::class_of(t, v, false), refabi::class_of(t, c, true)
        );
        if want != f.join(" ") {
            return Err(format!("the C reference in driver.c and refabi.rs disagree: C `{line}` vs Rust `{want}`"));
        }
        n += 1;
    }
    Ok(n)
}

fn native_run(scratch: &Scratch, gens: &BTreeMap<String, BTreeMap<String, String>>, thorough: bool) -> Result<(Vec<Cell>, Value), String> {
    let t0 = std::time::Instant::now();
    let builds = native::build_all(&scratch.0, gens)?;
    let build_s = t0.elapsed().as_secs_f64();
    let refchecked = ref_crosscheck(&builds[0])?;
    let mut jobs = Vec::new();
    let mut meta = Vec::new(); // (kind, build idx, site, t)
    for (bi, b) in builds.iter().enumerate() {
        jobs.push(native::Job {
            build: bi,
            exe: b.exe.clone(),
            args: vec!["list".into()],
            stdin: Some(Arc::new(list_input(b, None))),
            tag: format!("{} list", b.name),
            optional: false,
        });
        meta.push(("list", bi, "", WTy::Bool));
    }
    let sweep_job = |bi: usize, site: &'static str, t: WTy, ranges: &[(u64, u64)], optional: bool| {
        let b = &builds[bi];
        let mut args = vec!["sweep".to_string(), site.to_string(), t.idx().to_string(), (b.valid_only as u8).to_string()];
        for (lo, hi) in ranges {
            args.push(lo.to_string());
            args.push(hi.to_string());
        }
        native::Job { build: bi, exe: b.exe.clone(), args, stdin: None, tag: format!("{} sweep {site} {} {:x?}", b.name, t.name(), ranges), optional }
    };
    // (1) both tiers, never skipped: the quick-tier windows, one process per probe
    let mut sweep_types: Vec<WTy> = SWEEP32.to_vec();
    sweep_types.push(WTy::Char);
    for bi in 0..builds.len() {
        for site in SITES {
            for &t in &sweep_types {
                let (ranges, _) = sweep_ranges(t, false);
                if t == WTy::Bool && builds[bi].name == "rust-debug-assertions" {
                    // `bool_lift` panics on most of these inputs under debug assertions; a panic
                    // costs microseconds, so only 4 of the 16 high-half patterns (0x0000, 0x0001,
                    // 0x8000, 0xFFFF) are run, spread over processes
                    for r in ranges.iter().filter(|r| matches!(r.0 >> 16, 0x0000 | 0x0001 | 0x8000 | 0xFFFF)) {
                        jobs.push(sweep_job(bi, site, t, &[*r], false));
                        meta.push(("sweep", bi, site, t));
                    }
                    continue;
                }
                jobs.push(sweep_job(bi, site, t, &ranges, false));
                meta.push(("sweep", bi, site, t));
            }
        }
    }
    // (2) thorough: the whole 2^32 domain in 16 chunks per probe, most valuable types first, all
    // builds side by side; chunks not started before the budget ends are skipped and the probe
    // is then not listed under full_domain. The two Rust builds differ only in `bool_lift` /
    // `char_lift` (cfg!(debug_assertions)); the `as` casts of the swept types are the same code,
    // so only one of them is swept. Bool: the release build is swept over all 2^32 (`val != 0`
    // after `as u8`); the debug-assertions build panics on 254/256 of all inputs, which cannot
    // be swept at microseconds per panic, and keeps the windows.
    let budget_s: u64 = std::env::var("C14_SWEEP_BUDGET_S").ok().and_then(|s| s.parse().ok()).unwrap_or(400);
    let deadline = std::time::Instant::now() + std::time::Duration::from_secs(budget_s);
    let mut chunk_groups: BTreeMap<(usize, &'static str, WTy), (u32, u32)> = BTreeMap::new(); // (planned, done)
    if thorough {
        for t in [WTy::S8, WTy::S16, WTy::Bool, WTy::U8, WTy::U16, WTy::U32, WTy::S32, WTy::F32] {
            let (ranges, _) = sweep_ranges(t, true);
            for r in ranges {
                for site in SITES {
                    for (bi, b) in builds.iter().enumerate() {
                        let skip = if t == WTy::Bool { b.name == "rust-debug-assertions" } else { b.valid_only };
                        if skip {
                            continue;
                        }
                        jobs.push(sweep_job(bi, site, t, &[r], true));
                        meta.push(("chunk", bi, site, t));
                        chunk_groups.entry((bi, site, t)).or_insert((0, 0)).0 += 1;
                    }
                }
            }
        }
    }
    let njobs = jobs.len();
    let outs = native::run_jobs(jobs, vcommon::ncpu(), Some(deadline))?;
    let mut cells: BTreeMap<(String, String, WTy), Cell> = BTreeMap::new();
    let mut skipped = 0u64;
    for (out, (kind, bi, site, t)) in outs.iter().zip(meta) {
        let b = &builds[bi];
        let Some(out) = out else {
            skipped += 1;
            continue;
        };
        if kind == "list" {
            judge_list_output(b, out, &mut cells)?;
        } else {
            if out.trim().is_empty() {
                return Err(format!("{}: sweep produced no output", b.name));
            }
            if kind == "chunk" {
                chunk_groups.get_mut(&(bi, site, t)).unwrap().1 += 1;
            }
            for line in out.lines().filter(|l| !l.trim().is_empty()) {
                let c = Cell::from_sweep_line("native", &b.name, b.backend, site, t, line.trim())?;
                match cells.get_mut(&(b.name.clone(), site.to_string(), t)) {
                    Some(x) => x.merge(&c),
                    None => {
                        cells.insert((b.name.clone(), site.to_string(), t), c);
                    }
                }
            }
        }
    }
    let mut capped = Vec::new();
    for ((bi, site, t), (planned, done)) in &chunk_groups {
        let key = (builds[*bi].name.clone(), site.to_string(), *t);
        if planned == done {
            cells.get_mut(&key).unwrap().exhaustive_32 = true;
        } else {
            capped.push(format!("{}:{}-{}: {}/{} chunks of 2^28", builds[*bi].name, site, t.name(), done, planned));
        }
    }
    let info = json!({"compile_s": (build_s * 100.0).round() / 100.0, "jobs": njobs, "c_reference_crosschecked_words": refchecked,
        "builds": builds.iter().map(|b| b.name.clone()).collect::<Vec<_>>(),
        "sweep_budget_s": budget_s, "chunks_skipped_by_budget": skipped, "capped": capped});
    Ok((cells.into_values().collect(), info))
}

// ------------------------------------------------------------------------------------------
// verdicts

struct Candidate {
    key: String,
    what: String,
    detail: Value,
    w: u64,
    order: usize,
}

fn site_text(site: &str, t: WTy, dir: &str) -> String {
    match (site, dir) {
        ("imp", "lower") => format!("parameter of import imp-{}", t.name()),
        ("imp", _) => format!("result of import imp-{}", t.name()),
        ("exp", "lower") => format!("result of export exp-{}", t.name()),
        _ => format!("parameter of export exp-{}", t.name()),
    }
}

fn candidates(cells: &[Cell]) -> Vec<Candidate> {
    let mut out = Vec::new();
    for (order, c) in cells.iter().enumerate() {
        let t = c.t;
        let base = |kind: &str, b: &Bad| {
            json!({"engine": c.engine, "backend": c.backend, "build": c.build, "site": c.site, "type": t.name(), "kind": kind,
                   "word": b.w, "input": b.input, "expected": b.expected, "actual": b.actual, "body": c.body, "failing_inputs_in_cell": match kind {
                       "lower" => c.bad_lower, "lift" => c.bad_lift, _ => c.bad_trap }})
        };
        let body = c.body.as_ref().map(|b| format!("; emitted body: {b}")).unwrap_or_default();
        if let Some(b) = &c.first_bad_lower {
            out.push(Candidate {
                key: format!("{}:lower:{}:wrong-value", c.backend, t.name()),
                what: format!(
                    "{} lowers {} {} ({}) to core {}, the canonical ABI says {} [{} of {} judged inputs of this probe wrong; {}]{}",
                    c.backend, t.name(), show_user(t, b.input), site_text(&c.site, t, "lower"), show_core(t, b.actual), show_core(t, b.expected),
                    c.bad_lower, c.lower_judged, c.build, body
                ),
                detail: base("lower", b),
                w: b.w,
                order,
            });
        }
        if let Some(b) = &c.first_bad_lift {
            out.push(Candidate {
                key: format!("{}:lift:{}:wrong-value", c.backend, t.name()),
                what: format!(
                    "{} lifts core {} ({}) to {} {}, the canonical ABI says {} [{} of {} judged inputs of this probe wrong; {}]{}",
                    c.backend, show_core(t, b.input), site_text(&c.site, t, "lift"), t.name(), show_user(t, b.actual), show_user(t, b.expected),
                    c.bad_lift, c.lift_judged, c.build, body
                ),
                detail: base("lift", b),
                w: b.w,
                order,
            });
        }
        if let Some(b) = &c.first_bad_trap {
            out.push(Candidate {
                key: format!("{}:lift:{}:unexpected-trap", c.backend, t.name()),
                what: format!(
                    "{} traps when lifting the valid core {} ({}) to {}, expected {} [{}]{}",
                    c.backend, show_core(t, b.input), site_text(&c.site, t, "lift"), t.name(), show_user(t, b.expected), c.build, body
                ),
                detail: base("trap", b),
                w: b.w,
                order,
            });
        }
        if let Some((dir, msg, w)) = &c.ill_typed {
            out.push(Candidate {
                key: format!("{}:{}:{}:ill-typed", c.backend, dir, t.name()),
                what: format!(
                    "{} {} of {} ({}): the emitted body does not type-check in the target language ({msg}), so no conversion is computed{}",
                    c.backend, dir, t.name(), site_text(&c.site, t, dir), body
                ),
                detail: json!({"engine": c.engine, "backend": c.backend, "build": c.build, "site": c.site, "type": t.name(), "kind": "ill-typed", "word": w, "body": c.body}),
                w: *w,
                order,
            });
        }
    }
    out
}

fn report(run: &mut vcommon::Run, cells: &[Cell]) {
    let mut by_key: BTreeMap<String, Candidate> = BTreeMap::new();
    for c in candidates(cells) {
        match by_key.get(&c.key) {
            Some(x) if (x.w, x.order) <= (c.w, c.order) => {}
            _ => {
                by_key.insert(c.key.clone(), c);
            }
        }
    }
    for (_, c) in by_key {
        run.violation(&c.key, &c.what, c.detail);
    }
}

// ------------------------------------------------------------------------------------------

fn replay(run: &vcommon::Run, d: Value) -> ! {
    let gens = generate_all().unwrap_or_else(|e| vcommon::machinery(&e));
    let t = WTy::from_name(d["type"].as_str().unwrap_or("")).unwrap_or_else(|| vcommon::machinery("replay: bad type"));
    let site: &'static str = if d["site"] == "exp" { "exp" } else { "imp" };
    let w = d["word"].as_u64().unwrap_or(0);
    let backend = d["backend"].as_str().unwrap_or("").to_string();
    println!("replay: backend={backend} site={site} type={} word={w:#x}", t.name());
    let cell = if d["engine"] == "interp" {
        let lang = LANGS.into_iter().find(|l| l.backend() == backend).unwrap_or_else(|| vcommon::machinery("replay: bad backend"));
        let probes = discover(lang, &gens[lang.backend()]).unwrap_or_else(|e| vcommon::machinery(&e));
        let probe = &probes[&(site, t)];
        println!("  body: {}", probe.func.src);
        let mut cell = Cell::new("interp", lang.backend(), lang.backend(), site, t);
        cell.body = Some(probe.func.src.clone());
        interp_eval_word(lang, probe, site, t, w, &mut cell).unwrap_or_else(|e| vcommon::machinery(&e));
        cell
    } else {
        let scratch = Scratch::new();
        let builds = native::build_all(&scratch.0, &gens).unwrap_or_else(|e| scratch.fail(&e));
        let name = d["build"].as_str().unwrap_or("");
        let b = builds.iter().find(|b| b.name == name).unwrap_or_else(|| scratch.fail("replay: unknown build"));
        let out = native::run_jobs(
            vec![native::Job { build: 0, exe: b.exe.clone(), args: vec!["list".into()], stdin: Some(Arc::new(list_input(b, Some((site, t, w))))), tag: "replay".into(), optional: false }],
            1,
            None,
        )
        .unwrap_or_else(|e| scratch.fail(&e));
        let out = vec![out[0].clone().unwrap_or_default()];
        println!("  native observation: {}", out[0].trim());
        let mut cells = BTreeMap::new();
        judge_list_output(b, &out[0], &mut cells).unwrap_or_else(|e| scratch.fail(&e));
        cells.into_values().next().unwrap_or_else(|| scratch.fail("replay: no observation"))
    };
    let cands = candidates(&[cell]);
    for c in &cands {
        println!("  STILL FAILS {}: {}", c.key, c.what);
    }
    if cands.is_empty() {
        println!("  case passes now");
    }
    let _ = run;
    std::process::exit(if cands.is_empty() { 0 } else { 1 })
}

fn main() {
    let mut run = vcommon::Run::from_args("C14", "exploration");
    if let Some(i) = run.extra_args.iter().position(|a| a == "--dump") {
        let dir = run.extra_args.get(i + 1).cloned().unwrap_or_else(|| vcommon::machinery("--dump <dir>"));
        let gens = generate_all().unwrap_or_else(|e| vcommon::machinery(&e));
        for (b, files) in gens {
            for (n, t) in files {
                let p = format!("{dir}/{b}/{n}");
                std::fs::create_dir_all(std::path::Path::new(&p).parent().unwrap()).unwrap();
                std::fs::write(&p, t).unwrap();
            }
        }
        return;
    }
    if let Some(d) = run.replay_detail() {
        replay(&run, d);
    }
    if run.extra_args.iter().any(|a| a == "--bodies") {
        let gens = generate_all().unwrap_or_else(|e| vcommon::machinery(&e));
        for lang in LANGS {
            let probes = discover(lang, &gens[lang.backend()]).unwrap_or_else(|e| vcommon::machinery(&e));
            for ((site, t), p) in &probes {
                println!("{} {site} {}: {} calls {}({:?}) -> {:?}; params {:?} -> {:?}", lang.backend(), t.name(), p.func.src, p.opaque, p.opaque_sig.params, p.opaque_sig.ret, p.func.params, p.func.ret);
            }
        }
        return;
    }
    let thorough = run.thorough();
    let gens = generate_all().unwrap_or_else(|e| vcommon::machinery(&e));

    // ---- interpreted backends (process-parallel; before any thread is started)
    let mut all_probes = Vec::new();
    for lang in LANGS {
        let p = discover(lang, &gens[lang.backend()])
            .unwrap_or_else(|e| vcommon::machinery(&format!("{}: generated text outside the micro-grammar: {e}", lang.backend())));
        all_probes.push((lang, p));
    }
    let mut tasks = Vec::new();
    for (li, _) in all_probes.iter().enumerate() {
        for site in SITES {
            for t in ALL {
                tasks.push((li, site, t));
            }
        }
    }
    let rot = (run.seed as usize) % tasks.len();
    tasks.rotate_left(rot);
    let t_interp = std::time::Instant::now();
    let results = vcommon::par_map(tasks.len(), vcommon::ncpu(), |i| {
        let (li, site, t) = tasks[i];
        let (lang, probes) = &all_probes[li];
        match interp_cell(*lang, probes, site, t, thorough) {
            Ok(c) => json!({"ok": c.to_json()}),
            Err(e) => json!({"err": e}),
        }
    });
    let mut cells: Vec<Cell> = Vec::new();
    for r in &results {
        if let Some(e) = r["err"].as_str() {
            vcommon::machinery(e);
        }
        cells.push(Cell::from_json("interp", &r["ok"]));
    }
    let interp_s = t_interp.elapsed().as_secs_f64();

    // ---- native backends
    let scratch = Scratch::new();
    let t_native = std::time::Instant::now();
    let (ncells, native_info) = native_run(&scratch, &gens, thorough).unwrap_or_else(|e| scratch.fail(&e));
    let native_s = t_native.elapsed().as_secs_f64();
    drop(scratch);
    cells.extend(ncells);
    // "imp" before "exp" so that the import probe is the one reported when both show a defect
    cells.sort_by(|a, b| (a.engine, &a.build, a.site != "imp", a.t).cmp(&(b.engine, &b.build, b.site != "imp", b.t)));

    report(&mut run, &cells);

    // ---- evidence
    let mut evaluations = 0u64;
    let mut nontrivial = 0u64;
    let mut toggled = 0u64;
    let mut per_build: BTreeMap<String, Value> = BTreeMap::new();
    let mut outcomes: BTreeMap<&str, u64> = BTreeMap::new();
    let mut samples = Vec::new();
    let mut full32: BTreeMap<String, Vec<String>> = BTreeMap::new();
    let mut char_obs: BTreeMap<String, Value> = BTreeMap::new();
    for c in &cells {
        evaluations += c.evals;
        for k in 0..4 {
            nontrivial += (c.cls_lower[k].1 > 0) as u64 + (c.cls_lift[k].1 > 0) as u64;
        }
        toggled += (c.lo_or & !c.lo_and).count_ones() as u64 + (c.li_or & !c.li_and).count_ones() as u64;
        *outcomes.entry("lower_ok").or_default() += c.lower_judged - c.bad_lower;
        *outcomes.entry("lower_wrong").or_default() += c.bad_lower;
        *outcomes.entry("lift_ok").or_default() += c.lift_judged - c.bad_lift - c.bad_trap;
        *outcomes.entry("lift_wrong").or_default() += c.bad_lift;
        *outcomes.entry("lift_trap_on_valid_input").or_default() += c.bad_trap;
        *outcomes.entry("unjudged_input_trapped").or_default() += c.unj_trap;
        *outcomes.entry("unjudged_input_returned").or_default() += c.unj_ret;
        if c.ill_typed.is_some() {
            *outcomes.entry("ill_typed_bodies").or_default() += 1;
        }
        let e = per_build.entry(c.build.clone()).or_insert_with(|| json!({"evaluations": 0u64, "lower_judged": 0u64, "lift_judged": 0u64, "probes": 0u64}));
        e["evaluations"] = json!(e["evaluations"].as_u64().unwrap() + c.evals);
        e["lower_judged"] = json!(e["lower_judged"].as_u64().unwrap() + c.lower_judged);
        e["lift_judged"] = json!(e["lift_judged"].as_u64().unwrap() + c.lift_judged);
        e["probes"] = json!(e["probes"].as_u64().unwrap() + 1);
        if c.exhaustive_32 {
            full32.entry(c.build.clone()).or_default().push(format!("{}-{}", c.site, c.t.name()));
        }
        if c.t == WTy::Char && c.unj_trap + c.unj_ret > 0 {
            char_obs.insert(format!("{}:{}", c.build, c.site), json!({"returned": c.unj_ret, "trapped": c.unj_trap}));
        }
        // a few actual cases per build, narrow signed / unsigned types first
        let per_build_samples = samples.iter().filter(|x: &&Value| x["build"] == c.build.as_str()).count();
        if per_build_samples < 6 && matches!(c.t, WTy::S8 | WTy::U16 | WTy::S16 | WTy::U8 | WTy::F32 | WTy::Char) {
            samples.extend(c.samples.iter().rev().take(1).cloned());
        }
    }
    let n64 = refabi::structured_words(WTy::U64).len();
    let n32 = refabi::structured_words(WTy::U32).len();
    let coverage = json!({
        "evaluations": evaluations,
        "distinct_nontrivial": nontrivial,
        "rule": "number of (build, site, direction, type, input class) cells — classes: zero / below the sign bit / sign-bit region / core bits above the type's width — in which at least one evaluated input has a reference output that differs from the input word (a real zero-/sign-extension, truncation or re-signing, not an identity move)",
        "samples": samples,
        "exhaustive": native_info["capped"].as_array().map_or(true, |a| a.is_empty()),
        "exhaustive_note": "every listed word set was enumerated completely for every probe; no cap cut any enumeration. Whole-domain claims are only those listed under full_domain.",
        "probe_world": "12 scalar types x (import imp-T: func(x: T) -> T, export exp-T: func(x: T) -> T); each glue body holds exactly one lowering and one lifting of T",
        "backends_decided": {"native (real compiler, whole generated file)": ["rust (debug-assertions on and off)", "c (gcc -O2)", "cpp (g++ -O2)"],
                             "interpreted (micro-grammar + semantics table)": ["moonbit", "csharp", "go", "d"]},
        "bounds": {
            "tier": if thorough { "thorough" } else { "quick" },
            "lower_narrow": "all 2^8 / 2^16 values of u8 s8 u16 s16, both tiers, every backend (the low 16 bits of the word run over all 2^16 values)",
            "lift_narrow_interpreted": format!("all 2^16 low halves x {} high-half patterns{}", refabi::high_patterns(thorough).len(), if thorough { " (<=1 bit set/clear, adjacent bit pairs set/clear, 10 mixed)" } else { "" }),
            "lift_narrow_native": if thorough { "all 2^32 core i32 values (c, cpp, rust-debug-assertions; rust-release: quick-tier windows, same cast code)".to_string() } else { format!("all 2^16 low halves x {} high-half patterns + structured 32-bit set", refabi::high_patterns(false).len()) },
            "u32_s32_f32_native": if thorough { "all 2^32 bit patterns, both directions (f32 bit-exact incl. every NaN payload)".to_string() } else { format!("3 windows of 2^20..2^21 consecutive words at 0, 2^31 and 2^32 + structured set ({n32} words incl. NaN payload set for f32)") },
            "u32_s32_f32_interpreted": format!("structured 32-bit set ({n32} words): all patterns with <=2 bits set or <=2 bits clear, byte walks on 0 / all-ones background, width and char boundaries with neighbours and complements; f32 adds signalling/quiet NaN payload walks"),
            "u64_s64_f64": format!("structured 64-bit set ({n64} words; f64 adds NaN payload walks) — a bound, not the whole domain"),
            "char": if thorough { "every scalar value (and every non-scalar code below 0x120000 as unjudged input), plus the structured 32-bit set" } else { "native: every code below 0x120000; interpreted: 0..0x3000, 0xD000..0xE100, 0x10FF00..0x110100 + structured 32-bit set" },
            "bool": if thorough { "false/true lowered (must be exactly 0/1); lift judged as i != 0 over all 2^32 core i32 values (c, cpp, rust-release), 2^16 low halves x 4 high-half patterns + structured set (rust-debug-assertions: panics on 254/256 of all inputs), 2^16 x 74 high-half patterns + structured set (interpreted)" } else { "false/true lowered (must be exactly 0/1); lift judged as i != 0 over 2^16 low halves x 16 high-half patterns + the structured 32-bit set, every backend (rust-debug-assertions, which panics on 254/256 of all inputs: 4 high-half patterns)" },
        },
        "full_domain": full32,
        "per_build": per_build,
        "distinct_outcomes": outcomes,
        "output_bits_seen_both_0_and_1": toggled,
        "char_lift_of_non_scalar_values_observed": char_obs,
        "native": native_info,
        "phase_wall_s": {"interpreted": (interp_s * 100.0).round() / 100.0, "native_incl_compile": (native_s * 100.0).round() / 100.0},
    });
    let assumptions = vec![
        "Reference = Canonical ABI lower_flat/lift_flat of the scalar types as stated in the property: unsigned zero-extended / signed sign-extended into the core i32/i64 on lowering; narrow lifts take the low bits with the type's own signedness whatever the upper bits are; 64-bit and float values bit-exact; char = scalar value; bool lowered to exactly 0/1.".to_string(),
        "Bool: lowering must produce exactly 0 or 1; lifting is judged over the whole core i32 with the spec oracle convert_int_to_bool(i) = (i != 0) — lift_flat takes the whole i32 for bool, there is no masking as for u8 — so 0x100 or 0x80000000 must lift to true; a trap on any i32 is a violation (`unexpected-trap`). Char lift is judged on scalar values only; non-scalar inputs may trap or return and are recorded, not judged. The Rust release build (debug-assertions off) is never given a non-scalar char because the generated code is undefined there (from_u32_unchecked).".to_string(),
        "Float bit-exactness is stricter than the spec (which lets lifts canonicalise NaNs) because the property demands 'reinterpreted bit-exactly'; observed on x86-64 SSE / by-value passing of the host compilers.".to_string(),
        "Rust/C/C++: the host compilers (rustc, gcc, g++; -O2) stand in for the wasm32 toolchains: the conversions involve only fixed-width integer and float types whose semantics do not depend on the target. Rust: the cfg(not(wasm32)) `unreachable!()` import shim is redirected to a recording stub; nothing else in the generated file is touched.".to_string(),
        "MoonBit/C#/Go/D: evaluated by an interpreter whose semantics table is a decision of the checker (see interp/mod.rs header): two's-complement wrapping explicit conversions (C# default unchecked context), no implicit conversions in Go/MoonBit, C# implicit widening only, D promotions/widening only; a body that needs a conversion the language does not have is reported as ill-typed. User-level types are taken from the signatures the generator itself emits (Go: stubs via generate_stubs).".to_string(),
        "Only the sync, top-level-function glue of the probe world is observed; the same Instruction arms are used for fields/list elements but those sites are outside this check.".to_string(),
    ];
    run.finish(coverage, assumptions)
}
