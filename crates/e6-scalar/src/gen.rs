//! Probe world + in-process generation with every backend (mirrors /repo/src/bin/wit-bindgen.rs).
use std::collections::BTreeMap;
use wit_bindgen_core::wit_parser::Resolve;
use wit_bindgen_core::{Files, WorldGenerator};

pub const TYPES: [&str; 12] = [
    "bool", "u8", "s8", "u16", "s16", "u32", "s32", "u64", "s64", "f32", "f64", "char",
];

pub fn probe_wit() -> String {
    let mut s = String::from("package t:c14;\n\nworld probe {\n");
    for t in TYPES {
        s.push_str(&format!("  import imp-{t}: func(x: {t}) -> {t};\n"));
    }
    for t in TYPES {
        s.push_str(&format!("  export exp-{t}: func(x: {t}) -> {t};\n"));
    }
    s.push_str("}\n");
    s
}

pub const BACKENDS: [&str; 7] = ["rust", "c", "cpp", "csharp", "go", "moonbit", "d"];

fn generator(backend: &str) -> Box<dyn WorldGenerator> {
    match backend {
        "rust" => Box::new(wit_bindgen_rust::Opts::default().build()),
        "c" => wit_bindgen_c::Opts::default().build(),
        "cpp" => wit_bindgen_cpp::Opts::default().build(None),
        "csharp" => wit_bindgen_csharp::Opts::default().build(),
        "go" => {
            let mut o = wit_bindgen_go::Opts::default();
            o.format = wit_bindgen_go::Format::False;
            // stubs carry the user-level signature of the exported functions
            o.generate_stubs = true;
            o.build()
        }
        "moonbit" => wit_bindgen_moonbit::Opts::default().build(),
        "d" => wit_bindgen_d::Opts::default().build(None),
        _ => unreachable!(),
    }
}

/// file name -> text (non-UTF-8 files are skipped)
pub fn generate(backend: &str) -> Result<BTreeMap<String, String>, String> {
    let mut resolve = Resolve::default();
    let pkg = resolve
        .push_str("probe.wit", &probe_wit())
        .map_err(|e| format!("probe world does not parse: {e:#}"))?;
    let world = resolve
        .select_world(&[pkg], None)
        .map_err(|e| format!("select_world: {e:#}"))?;
    let mut files = Files::default();
    let mut g = generator(backend);
    g.generate(&mut resolve, world, &mut files)
        .map_err(|e| format!("{backend} generator failed: {e:#}"))?;
    let mut out = BTreeMap::new();
    for (name, bytes) in files.iter() {
        if let Ok(s) = std::str::from_utf8(bytes) {
            out.insert(name.to_string(), s.to_string());
        }
    }
    Ok(out)
}
