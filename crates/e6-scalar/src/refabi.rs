//! Independent reference for the canonical-ABI scalar mapping, written from the property
//! statement / the Canonical ABI explainer (`lower_flat` / `lift_flat` of the scalar types),
//! in terms of mathematical integers (i128) — deliberately not in terms of `as` casts.
//!
//! Containers (all `u64`):
//! * user-level value of WIT type T: unsigned → the value; signed → the value's two's
//!   complement at 64 bits (so "the mathematical value" is `container as i64`); bool → 0/1;
//!   char → scalar value; f32 → IEEE bits in the low 32 bits; f64 → IEEE bits.
//! * core value: i32 → the 32 bits zero-extended; i64 → the 64 bits; f32/f64 as above.

#[derive(Clone, Copy, PartialEq, Eq, Debug, PartialOrd, Ord)]
pub enum WTy {
    Bool,
    U8,
    S8,
    U16,
    S16,
    U32,
    S32,
    U64,
    S64,
    F32,
    F64,
    Char,
}

pub const ALL: [WTy; 12] = [
    WTy::Bool,
    WTy::U8,
    WTy::S8,
    WTy::U16,
    WTy::S16,
    WTy::U32,
    WTy::S32,
    WTy::U64,
    WTy::S64,
    WTy::F32,
    WTy::F64,
    WTy::Char,
];

impl WTy {
    pub fn idx(self) -> usize {
        ALL.iter().position(|t| *t == self).unwrap()
    }
    pub fn from_idx(i: usize) -> WTy {
        ALL[i]
    }
    pub fn name(self) -> &'static str {
        crate::gen::TYPES[self.idx()]
    }
    pub fn from_name(n: &str) -> Option<WTy> {
        crate::gen::TYPES.iter().position(|t| *t == n).map(|i| ALL[i])
    }
    /// `Bool` -> "Bool", `U8` -> "U8" (upper camel of the WIT name)
    pub fn camel(self) -> String {
        let n = self.name();
        let mut c = n.chars();
        let f = c.next().unwrap().to_ascii_uppercase();
        format!("{f}{}", c.as_str())
    }
    /// width in bits of the WIT integer type (None for bool/char/floats)
    pub fn int_width(self) -> Option<(u32, bool)> {
        Some(match self {
            WTy::U8 => (8, false),
            WTy::S8 => (8, true),
            WTy::U16 => (16, false),
            WTy::S16 => (16, true),
            WTy::U32 => (32, false),
            WTy::S32 => (32, true),
            WTy::U64 => (64, false),
            WTy::S64 => (64, true),
            _ => return None,
        })
    }
    pub fn core_bits(self) -> u32 {
        match self {
            WTy::U64 | WTy::S64 | WTy::F64 => 64,
            _ => 32,
        }
    }
    pub fn is_float(self) -> bool {
        matches!(self, WTy::F32 | WTy::F64)
    }
    /// bits of information in the user-level value (for domain construction)
    pub fn value_bits(self) -> u32 {
        match self {
            WTy::Bool => 1,
            WTy::Char => 21,
            WTy::F32 => 32,
            WTy::F64 => 64,
            t => t.int_width().unwrap().0,
        }
    }
}

pub fn is_scalar_value(c: u64) -> bool {
    c < 0xD800 || (0xE000..=0x10FFFF).contains(&c)
}

fn pow2(n: u32) -> i128 {
    1i128 << n
}

/// Mathematical value of a user-level container.
pub fn user_math(t: WTy, v: u64) -> i128 {
    match t.int_width() {
        Some((_, true)) => (v as i64) as i128,
        _ => v as i128,
    }
}

/// Container of a mathematical value of WIT type `t` (must be in range).
pub fn user_container(t: WTy, m: i128) -> u64 {
    if let Some((n, signed)) = t.int_width() {
        if signed {
            assert!(m >= -pow2(n - 1) && m < pow2(n - 1));
            return (m as i64) as u64;
        }
        assert!(m >= 0 && m < pow2(n));
    }
    m as u64
}

/// A *valid* user-level container derived from an arbitrary word (how every engine maps
/// the enumeration counter to a user value).
pub fn user_from_word(t: WTy, w: u64) -> u64 {
    match t {
        WTy::Bool => w & 1,
        WTy::Char => {
            let c = w & 0x1F_FFFF;
            if is_scalar_value(c) {
                c
            } else {
                0x41
            }
        }
        WTy::F32 => w & 0xFFFF_FFFF,
        WTy::F64 => w,
        _ => {
            let (n, signed) = t.int_width().unwrap();
            let low = (w as i128).rem_euclid(pow2(n));
            let m = if signed && low >= pow2(n - 1) {
                low - pow2(n)
            } else {
                low
            };
            user_container(t, m)
        }
    }
}

pub fn core_from_word(t: WTy, w: u64) -> u64 {
    if t.core_bits() == 32 {
        w & 0xFFFF_FFFF
    } else {
        w
    }
}

/// `lower_flat`: the core value (container) the canonical ABI prescribes for user value `v`.
pub fn ref_lower(t: WTy, v: u64) -> u64 {
    match t {
        WTy::Bool => {
            if v != 0 {
                1
            } else {
                0
            }
        }
        WTy::Char => v,
        WTy::F32 | WTy::F64 => v,
        _ => {
            let mut i = user_math(t, v);
            // lower_flat_signed: if i < 0: i += 2**core_bits
            if i < 0 {
                i += pow2(t.core_bits());
            }
            assert!(i >= 0 && i < pow2(t.core_bits()));
            i as u64
        }
    }
}

#[derive(Clone, Copy, PartialEq, Eq, Debug)]
pub enum Lift {
    /// the lift is defined by the property: user-level container expected
    Value(u64),
    /// input the property does not speak about (char from a non-scalar-value): observed,
    /// never judged
    Unjudged,
}

/// `lift_flat`: user value the canonical ABI prescribes for core value `c`.
pub fn ref_lift(t: WTy, c: u64) -> Lift {
    match t {
        // convert_int_to_bool(i) = bool(i): lift_flat takes the whole core i32, no masking
        WTy::Bool => Lift::Value((c != 0) as u64),
        WTy::Char => {
            if is_scalar_value(c) {
                Lift::Value(c)
            } else {
                Lift::Unjudged
            }
        }
        WTy::F32 | WTy::F64 => Lift::Value(c),
        _ => {
            let (n, signed) = t.int_width().unwrap();
            // lift_flat_unsigned / lift_flat_signed
            let mut i = (c as i128).rem_euclid(pow2(n));
            if signed && i >= pow2(n - 1) {
                i -= pow2(n);
            }
            Lift::Value(user_container(t, i))
        }
    }
}

/// Input classes used for the `distinct_nontrivial` count:
/// 0 zero, 1 small positive (below the sign bit of the type), 2 sign-bit region,
/// 3 (core words only) bits above the type's width set.
pub fn class_of(t: WTy, w: u64, core: bool) -> usize {
    let n = t.value_bits().max(1);
    let low = if n >= 64 { w } else { w & ((1u64 << n) - 1) };
    let above = if n >= 64 { 0 } else { w >> n };
    if core && above != 0 && t.core_bits() > n {
        return 3;
    }
    if low == 0 {
        0
    } else if n >= 2 && (low >> (n - 1)) & 1 == 1 {
        2
    } else {
        1
    }
}

// ---------------------------------------------------------------------------------------
// Domains

fn push_le2(out: &mut Vec<u64>, bits: u32) {
    let mask = if bits == 64 { u64::MAX } else { (1u64 << bits) - 1 };
    out.push(0);
    out.push(mask);
    for i in 0..bits {
        out.push(1u64 << i);
        out.push(mask ^ (1u64 << i));
        for j in (i + 1)..bits {
            out.push((1u64 << i) | (1u64 << j));
            out.push(mask ^ ((1u64 << i) | (1u64 << j)));
        }
    }
}

/// Structured set of `bits`-wide words: all patterns with <=2 bits set or <=2 bits clear,
/// byte walks (every byte value in every byte position on an all-zero and an all-one
/// background), width boundaries and their neighbours, char boundaries.
pub fn structured(bits: u32) -> Vec<u64> {
    let mask = if bits == 64 { u64::MAX } else { (1u64 << bits) - 1 };
    let mut out = Vec::new();
    push_le2(&mut out, bits);
    for p in 0..(bits / 8) {
        for b in 0..256u64 {
            out.push(b << (8 * p));
            out.push(mask ^ (0xFFu64 << (8 * p)) | (b << (8 * p)));
        }
    }
    let mut bounds: Vec<u64> = vec![
        0x7F, 0x80, 0xFF, 0x100, 0x7FFF, 0x8000, 0xFFFF, 0x1_0000, 0x7FFF_FFFF, 0x8000_0000,
        0xFFFF_FFFF, 0x1_0000_0000, 0x7FFF_FFFF_FFFF_FFFF, 0x8000_0000_0000_0000,
        0xD7FF, 0xD800, 0xDFFF, 0xE000, 0x10_FFFF, 0x11_0000, 0x1F_FFFF, 0x20_0000,
        0x5555_5555_5555_5555, 0xAAAA_AAAA_AAAA_AAAA, 0x0123_4567_89AB_CDEF,
        0x1FF, 0x17F, 0xFFFF_FF80, 0x1_8000, 0xFFFF_7FFF, 0x1_FFFF, 0x1_7FFF,
    ];
    let base = bounds.clone();
    for b in base {
        bounds.push(b.wrapping_add(1));
        bounds.push(b.wrapping_sub(1));
        bounds.push(b.wrapping_neg());
        bounds.push(!b);
    }
    for b in bounds {
        out.push(b & mask);
    }
    out.sort();
    out.dedup();
    out
}

/// Float bit patterns: ±0, ±inf, denormal/normal extremes, ones, NaNs with every single payload
/// bit, all-ones and minimal payloads, quiet and signalling, both signs.
pub fn float_patterns(bits: u32) -> Vec<u64> {
    let (mant, exp_all): (u32, u64) = if bits == 32 { (23, 0xFF) } else { (52, 0x7FF) };
    let sign = 1u64 << (bits - 1);
    let exp = exp_all << mant;
    let quiet = 1u64 << (mant - 1);
    let mut out = vec![0, 1, (1u64 << mant) - 1, 1u64 << mant, exp - 1, exp];
    out.push(if bits == 32 { 0x3F80_0000 } else { 0x3FF0_0000_0000_0000 });
    for p in 0..mant {
        out.push(exp | (1u64 << p)); // signalling unless p is the quiet bit
        out.push(exp | quiet | (1u64 << p));
    }
    out.push(exp | ((1u64 << mant) - 1));
    out.push(exp | (quiet - 1)); // signalling, all other payload bits
    out.push(exp | 1);
    let n = out.len();
    for i in 0..n {
        out.push(out[i] | sign);
    }
    out.sort();
    out.dedup();
    out
}

/// Words fed to both directions of type `t` in "list" style evaluation (structured bound).
pub fn structured_words(t: WTy) -> Vec<u64> {
    let mut v = structured(t.core_bits());
    if t.is_float() {
        v.extend(float_patterns(t.core_bits()));
    }
    if t == WTy::Bool {
        v.extend([0, 1, 2, 3]);
    }
    v.sort();
    v.dedup();
    v
}

/// 16-bit "high half" patterns combined with all 2^16 low halves for the narrow lifts.
pub fn high_patterns(thorough: bool) -> Vec<u64> {
    if thorough {
        // <=1 bit set / clear, adjacent bit pairs set / clear, a few mixed patterns
        let mut v: Vec<u64> = vec![0, 0xFFFF];
        for i in 0..16 {
            v.push(1 << i);
            v.push(0xFFFF ^ (1 << i));
            if i < 15 {
                v.push(3 << i);
                v.push(0xFFFF ^ (3 << i));
            }
        }
        v.extend([0x00FF, 0xFF00, 0x5555, 0xAAAA, 0x0F0F, 0xF0F0, 0x1234, 0xFEDC, 0x8001, 0x7FFE]);
        v.sort();
        v.dedup();
        v
    } else {
        vec![
            0x0000, 0x0001, 0x0002, 0x0080, 0x00FF, 0x0100, 0x5555, 0x7FFF, 0x8000, 0x8001,
            0xAAAA, 0xFF00, 0xFF7F, 0xFFFE, 0xFFFF, 0x4000,
        ]
    }
}

#[cfg(test)]
mod tests {
    use super::*;
    #[test]
    fn spot() {
        assert_eq!(ref_lower(WTy::S8, user_container(WTy::S8, -1)), 0xFFFF_FFFF);
        assert_eq!(ref_lower(WTy::U8, 0xFF), 0xFF);
        assert_eq!(ref_lift(WTy::S8, 0x1FF), Lift::Value(u64::MAX));
        assert_eq!(ref_lift(WTy::S8, 0x17F), Lift::Value(0x7F));
        assert_eq!(ref_lift(WTy::U16, 0xFFFF_8000), Lift::Value(0x8000));
        assert_eq!(ref_lift(WTy::S64, u64::MAX), Lift::Value(u64::MAX));
        assert_eq!(ref_lower(WTy::S64, u64::MAX), u64::MAX);
    }
}
