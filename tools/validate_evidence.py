#!/usr/bin/env python3
import json, sys, os
pid = sys.argv[1]
path = os.environ.get("VERIF_ROOT", "/verif") + f"/evidence/{pid}.json"
try:
    ev = json.load(open(path))
except Exception as e:
    print("evidence unreadable:", e); sys.exit(1)
try:
    sys.path.insert(0, "/opt/veriftools/pyvenv/lib/python3.11/site-packages")
    import jsonschema
    schema = json.load(open("/root/.vp/EVIDENCE.schema.json"))
    jsonschema.validate(ev, schema)
except ImportError:
    for k in ["property_id", "tier", "seed", "level", "coverage", "wall_s"]:
        if k not in ev:
            print("evidence missing", k); sys.exit(1)
except FileNotFoundError:
    pass
except Exception as e:
    print("evidence schema violation:", str(e)[:500]); sys.exit(1)
if ev.get("property_id") != pid:
    print("evidence property mismatch"); sys.exit(1)
sys.exit(0)
