#!/bin/bash
# Runs every registered check's quick tier in /verif (refreshes evidence), prints a summary.
cd /verif
for id in $(cut -f1 checks.tsv | sort -u); do
  grep -q "\"property_id\": \"$id\"" MANIFEST.json || continue
  s=$(date +%s); out=$(./check $id --tier quick 2>&1); rc=$?; e=$(( $(date +%s) - s ))
  echo "$id rc=$rc ${e}s $(echo "$out" | grep -c '^KNOWN-FINDING') known $(echo "$out" | grep -c '^VIOLATION') viol | $(echo "$out" | grep -E 'MACHINERY' | head -1 | cut -c1-150)"
done
