#!/usr/bin/env python3
"""Regenerate MANIFEST.json and checks.tsv from tools/checks.json (single source of truth).
Every property in properties.jsonl that has no entry in checks.json is listed under
not_applicable with the reason in tools/na.json (default: machinery not built yet)."""
import json, sys
root = "/verif"
checks = json.load(open(f"{root}/tools/checks.json"))
na = json.load(open(f"{root}/tools/na.json"))
props = [json.loads(l) for l in open(f"{root}/properties.jsonl")]
claimed = {c["property_id"] for c in checks["checks"]}
out_checks = []
tsv = []
for c in checks["checks"]:
    pid = c["property_id"]
    tsv.append("\t".join([pid, c["pkg"], c["bin"], c.get("args", ""), ",".join(c.get("more", []))]))
    out_checks.append({
        "property_id": pid,
        "quick_cmd": f"./check {pid} --tier quick",
        "thorough_cmd": f"./check {pid} --tier thorough",
        "evidence_file": f"/verif/evidence/{pid}.json",
        "replay_cmd_template": f"./check {pid} --replay {{path}}",
        "engine": c["engine"],
        "level_claimed": {"category": c["level"], "text": c["text"], "design_ref": c.get("design_ref", "DESIGN.md §5 " + pid)},
        "level_note": c["note"],
        "technique": c["technique"],
    })
m = {
    "version": 1,
    "setup_cmd": checks["setup_cmd"],
    "hooks": checks["hooks"],
    "engines": checks["engines"],
    "checks": out_checks,
    "notes": checks.get("notes", ""),
    "not_applicable": [
        {"property_id": p["id"], "reason": na.get(p["id"], "machinery not built yet (see DESIGN.md §9 fall-back rule); not claimed")}
        for p in props if p["id"] not in claimed
    ],
}
json.dump(m, open(f"{root}/MANIFEST.json", "w"), indent=1)
# keep lines that builders appended for engines not yet integrated into checks.json
try:
    for l in open(f"{root}/checks.tsv").read().splitlines():
        if l.strip() and l.split("\t")[0] not in claimed:
            tsv.append(l)
except FileNotFoundError:
    pass
open(f"{root}/checks.tsv", "w").write("\n".join(tsv) + ("\n" if tsv else ""))
try:
    sys.path.insert(0, "/opt/veriftools/pyvenv/lib/python3.11/site-packages")
    import jsonschema
    jsonschema.validate(m, json.load(open("/root/.vp/MANIFEST.schema.json")))
    print("MANIFEST.json valid;", len(out_checks), "checks,", len(m["not_applicable"]), "not_applicable")
except ImportError:
    print("jsonschema missing; not validated")
