#!/bin/bash
# tools/mutant_run.sh [--baseline] <patch.diff> <ID> [<ID>...]   (env TIER=quick|thorough)
# Runs checks against a *scratch copy* of /repo (HEAD + the patch) without touching /repo:
#   scratch/repo   = git worktree of /repo HEAD with the patch applied
#   scratch/verif  = copy of /verif (tracked+untracked sources, no build output) with its
#                    path dependencies rewritten to scratch/repo
# Prints each check's output and "MUTANT-RESULT <ID> exit=<rc>"; removes everything afterwards.
# --baseline additionally runs the repository's own test suite on the mutated copy.
set -u
BASE=0
if [ "${1:-}" = "--baseline" ]; then BASE=1; shift; fi
PATCH=$(readlink -f "$1"); shift
S=$(mktemp -d /var/tmp/vm-XXXXXX)
cleanup() { git -C /repo worktree remove --force "$S/repo" >/dev/null 2>&1; rm -rf "$S"; git -C /repo worktree prune; }
trap cleanup EXIT
git -C /repo worktree add -q --detach "$S/repo" HEAD || exit 2
if ! git -C "$S/repo" apply "$PATCH"; then echo "MUTANT-ERROR: patch does not apply"; exit 2; fi
rsync -a --exclude '/target' --exclude '/target-*' --exclude '/.git' --exclude '/evidence' --exclude '/replays' --exclude '/work' --exclude '/seeded' /verif/ "$S/verif/"
mkdir -p "$S/verif/evidence" "$S/verif/replays"
sed -i "s#\"/repo/#\"$S/repo/#g" "$S/verif/Cargo.toml"
sed -i "s#/verif/target#$S/target#g" "$S/verif/.cargo/config.toml"
# seed the scratch target dir with the already-built third-party crates
if [ -d /verif/target/release ]; then mkdir -p "$S/target"; cp -a /verif/target/release "$S/target/release" 2>/dev/null; fi
export VERIF_ROOT="$S/verif" VERIF_REPO="$S/repo" CARGO_TARGET_DIR="$S/target" CARGO_NET_OFFLINE=true
if [ $BASE = 1 ]; then
  ( cd "$S/repo" && CARGO_TARGET_DIR="$S/rtarget" cargo test --workspace --no-fail-fast --offline 2>&1 | grep -E "^test result|FAILED|panicked|error" | sort | uniq -c | tail -20 )
  echo "MUTANT-BASELINE exit=${PIPESTATUS[0]}"
fi
for ID in "$@"; do
  ( cd "$S/verif" && ./check "$ID" --tier "${TIER:-quick}" 2>&1 | tail -${TAIL:-40} ; exit ${PIPESTATUS[0]} )
  echo "MUTANT-RESULT $ID exit=$?"
done
