#!/bin/bash
# tools/store_seed.sh <seed-name e.g. C19-1> "<what I ran and what it reported>" <caught_by comma list or "none">
n=$1; d=/verif/seeded/$n; mkdir -p $d
cp /tmp/seed-$n/out/patch.diff $d/patch.diff
rm -rf $d/demo; cp -r /tmp/seed-$n/out/demo $d/demo 2>/dev/null
find $d/demo -name target -type d -prune -exec rm -rf {} + 2>/dev/null
python3 - "$n" "$2" "$3" <<'PY'
import json,sys
n,ran,caught=sys.argv[1:4]
m=json.load(open(f'/tmp/seed-{n}/out/meta.json'))
m['breaks_property']=m.get('property')
m['needs_to_manifest']=m.get('needs')
m['verification_run']=ran
m['caught_by']=[] if caught=='none' else caught.split(',')
m['origin']='independent sub-agent given only the property text and its own worktree of /repo'
json.dump(m,open(f'/verif/seeded/{n}/meta.json','w'),indent=1)
PY
du -sh $d | cut -f1
