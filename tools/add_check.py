#!/usr/bin/env python3
"""tools/add_check.py <ID> <pkg> <bin> <engine> <level> <design_ref> <<< JSON{"text","note","technique","more":[]}"""
import json, sys
pid, pkg, b, engine, level, ref = sys.argv[1:7]
extra = json.load(sys.stdin)
c = json.load(open('/verif/tools/checks.json'))
c['checks'] = [x for x in c['checks'] if x['property_id'] != pid]
c['checks'].append({"property_id": pid, "pkg": pkg, "bin": b, "engine": engine, "level": level, "design_ref": ref, **extra})
c['checks'].sort(key=lambda x: x['property_id'])
if not any(e['name'] == engine for e in c['engines']):
    c['engines'].append({"name": engine, "path": f"crates/{pkg}", "serves_properties": [], "kind_free_text": extra.get("engine_kind", "")})
for e in c['engines']:
    e['serves_properties'] = sorted({x['property_id'] for x in c['checks'] if x['engine'] == e['name']})
for x in c['checks']:
    x.pop('engine_kind', None)
json.dump(c, open('/verif/tools/checks.json', 'w'), indent=1)
