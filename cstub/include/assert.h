/* /verif/cstub: minimal freestanding <assert.h>. */
#ifndef VERIF_CSTUB_ASSERT_H
#define VERIF_CSTUB_ASSERT_H
_Noreturn void abort(void);
#ifdef NDEBUG
#define assert(x) ((void)0)
#else
#define assert(x) ((x) ? (void)0 : abort())
#endif
#define static_assert _Static_assert
#endif
