/* /verif/cstub: minimal freestanding <string.h>. */
#ifndef VERIF_CSTUB_STRING_H
#define VERIF_CSTUB_STRING_H
#include <stddef.h>
void *memcpy(void *restrict dst, const void *restrict src, size_t n);
void *memmove(void *dst, const void *src, size_t n);
void *memset(void *dst, int c, size_t n);
int memcmp(const void *a, const void *b, size_t n);
size_t strlen(const char *s);
int strcmp(const char *a, const char *b);
#endif
