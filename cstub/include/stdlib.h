/* /verif/cstub: minimal freestanding <stdlib.h> for compiling generated C for wasm32 without a sysroot. */
#ifndef VERIF_CSTUB_STDLIB_H
#define VERIF_CSTUB_STDLIB_H
#include <stddef.h>
#ifdef __cplusplus
extern "C" {
#endif
void *malloc(size_t size);
void *calloc(size_t n, size_t size);
void *realloc(void *ptr, size_t size);
void free(void *ptr);
_Noreturn void abort(void);
_Noreturn void exit(int code);
#ifdef __cplusplus
}
#endif
#endif
