/* /verif/cstub/libc.c: ~60-line freestanding libc for *linking* generated C for wasm32.
 * Nothing here is ever executed by the checks (no wasm runtime in the sandbox); it only has to
 * satisfy wasm-ld.  A bump allocator over memory.grow keeps it honest enough to be runnable. */
#include <stddef.h>
#include <stdint.h>

extern unsigned char __heap_base;
static uintptr_t brk_ptr;

_Noreturn void abort(void) { __builtin_trap(); }
_Noreturn void exit(int code) { (void)code; __builtin_trap(); }

void *memcpy(void *restrict dst, const void *restrict src, size_t n) {
  unsigned char *d = (unsigned char *)dst; const unsigned char *s = (const unsigned char *)src;
  for (size_t i = 0; i < n; i++) d[i] = s[i];
  return dst;
}
void *memmove(void *dst, const void *src, size_t n) {
  unsigned char *d = (unsigned char *)dst; const unsigned char *s = (const unsigned char *)src;
  if (d < s) { for (size_t i = 0; i < n; i++) d[i] = s[i]; }
  else { for (size_t i = n; i > 0; i--) d[i - 1] = s[i - 1]; }
  return dst;
}
void *memset(void *dst, int c, size_t n) {
  unsigned char *d = (unsigned char *)dst;
  for (size_t i = 0; i < n; i++) d[i] = (unsigned char)c;
  return dst;
}
int memcmp(const void *a, const void *b, size_t n) {
  const unsigned char *x = (const unsigned char *)a, *y = (const unsigned char *)b;
  for (size_t i = 0; i < n; i++) if (x[i] != y[i]) return x[i] < y[i] ? -1 : 1;
  return 0;
}
size_t strlen(const char *s) { size_t n = 0; while (s[n]) n++; return n; }
int strcmp(const char *a, const char *b) {
  while (*a && *a == *b) { a++; b++; }
  return (unsigned char)*a - (unsigned char)*b;
}

/* every block is preceded by its size so that realloc can copy */
void *malloc(size_t size) {
  if (!brk_ptr) brk_ptr = (uintptr_t)&__heap_base;
  uintptr_t p = (brk_ptr + 8 + 15) & ~(uintptr_t)15;
  uintptr_t end = p + size;
  uintptr_t have = (uintptr_t)__builtin_wasm_memory_size(0) * 65536u;
  if (end > have) {
    size_t pages = (end - have + 65535u) / 65536u;
    if (__builtin_wasm_memory_grow(0, pages) == (size_t)-1) return NULL;
  }
  ((size_t *)p)[-1] = size;
  brk_ptr = end;
  return (void *)p;
}
void *calloc(size_t n, size_t size) { void *p = malloc(n * size); if (p) memset(p, 0, n * size); return p; }
void free(void *ptr) { (void)ptr; }
void *realloc(void *ptr, size_t size) {
  void *p = malloc(size);
  if (p && ptr) { size_t old = ((size_t *)ptr)[-1]; memcpy(p, ptr, old < size ? old : size); }
  return p;
}
